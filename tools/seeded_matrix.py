#!/usr/bin/env python3
"""Run the registered checks against the seeded changes in /verif/seeded/<id>/patch.diff.

Each patch is applied to a scratch worktree of /repo (default /tmp/vfmut, created on demand, removed at the
end unless --keep), the property's check is run with VERIF_REPO_ROOT pointing at it (evidence goes to a temp
dir), and the outcome is written to seeded/MATRIX.json:  {seed id: {tier: {"rc":..., "mechanisms": [...]}}}.

usage: tools/seeded_matrix.py [--only C04-1,C06-2] [--props C04,C05] [--tier quick|thorough|both] [--cross]
  --cross: also run every OTHER sim property's quick check on each patch (which checks catch which changes)
"""
import argparse, json, os, re, subprocess, sys, tempfile, shutil

HERE = os.path.dirname(os.path.dirname(os.path.abspath(__file__)))
WT = os.environ.get("VERIF_MUT_WT", "/tmp/vfmut")
CORPUS_PROPS = {"C01", "C02", "C03", "C04", "C05", "C06", "C07", "C08", "C13", "C16", "C19"}


def sh(cmd, **kw):
    return subprocess.run(cmd, shell=True, stdout=subprocess.PIPE, stderr=subprocess.STDOUT, text=True, **kw)


def ensure_wt():
    if not os.path.isdir(os.path.join(WT, "aiokafka")):
        sh("git -C /repo worktree prune")
        r = sh(f"git -C /repo worktree add -q --detach {WT} HEAD")
        if r.returncode:
            sys.exit("cannot create worktree: " + r.stdout)
    sh(f"git -C {WT} reset -q --hard && git -C {WT} checkout -q --detach $(git -C /repo rev-parse HEAD)")


def apply(patch):
    sh(f"git -C {WT} reset -q --hard")
    r = sh(f"git -C {WT} apply --3way {patch} || git -C {WT} apply {patch} || (cd {WT} && patch -p1 --fuzz=3 < {patch})")
    st = sh(f"git -C {WT} status --short").stdout
    conflict = any(l.startswith(("UU", "AA")) for l in st.splitlines())
    return (r.returncode == 0 and not conflict and bool(st.strip())), r.stdout[-400:]


def run_check(prop, tier, timeout=7200):
    ev = tempfile.mkdtemp(prefix="vf-mut-ev-")
    env = dict(os.environ, VERIF_REPO_ROOT=WT, VERIF_EVIDENCE_DIR=ev)
    try:
        r = subprocess.run([os.path.join(HERE, "check"), prop, "--tier", tier], cwd=HERE, env=env, stdout=subprocess.PIPE,
                           stderr=subprocess.STDOUT, text=True, timeout=timeout)
        out, rc = r.stdout, r.returncode
    except subprocess.TimeoutExpired as e:
        out, rc = (e.stdout or b"").decode(errors="replace") if isinstance(e.stdout, bytes) else (e.stdout or ""), "timeout"
    finally:
        witnesses = []
        try:      # harvest up to 3 witnesses with distinct mechanisms (for the regression corpus)
            import glob
            seen = set()
            for f in sorted(glob.glob(os.path.join(ev, "replays", f"{prop}-*.json"))):
                w = json.load(open(f))
                if w.get("mechanism") in seen:
                    continue
                seen.add(w.get("mechanism"))
                witnesses.append({"mechanism": w.get("mechanism"), "witness": w.get("witness")})
                if len(witnesses) >= 3:
                    break
        except Exception:  # noqa: BLE001
            pass
        run_check.last_witnesses = witnesses
        shutil.rmtree(ev, ignore_errors=True)
    known = sorted(set(re.findall(r"\[mechanism=([^,\]]+)", out)))
    mechs = sorted(set(m.rstrip(",") for m in re.findall(r"mechanism=(\S+)", out)) - set(known))
    tail = [l for l in out.splitlines() if l.startswith((prop + ":", "INCONCLUSIVE"))][-2:]
    return {"rc": rc, "mechanisms": mechs, "known_findings": known, "tail": [t[:300] for t in tail]}


def main():
    ap = argparse.ArgumentParser()
    ap.add_argument("--only")
    ap.add_argument("--props")
    ap.add_argument("--tier", default="both")
    ap.add_argument("--cross", action="store_true")
    ap.add_argument("--keep", action="store_true")
    ap.add_argument("--harvest", action="store_true", help="store witnesses of caught changes in vf/props/corpus/<PROP>.json")
    a = ap.parse_args()
    man = json.load(open(os.path.join(HERE, "MANIFEST.json")))
    registered = [c["property_id"] for c in man["checks"]]
    mpath = os.path.join(HERE, "seeded", "MATRIX.json")
    matrix = json.load(open(mpath)) if os.path.exists(mpath) else {}
    seeds = sorted(d for d in os.listdir(os.path.join(HERE, "seeded")) if os.path.isfile(os.path.join(HERE, "seeded", d, "patch.diff")))
    if a.only:
        seeds = [s for s in seeds if s in a.only.split(",")]
    if a.props:
        seeds = [s for s in seeds if s.split("-")[0] in a.props.split(",")]
    ensure_wt()
    for sid in seeds:
        prop = sid.split("-")[0]
        ok, msg = apply(os.path.join(HERE, "seeded", sid, "patch.diff"))
        ent = matrix.setdefault(sid, {})
        ent["repo_head"] = sh("git -C /repo rev-parse --short HEAD").stdout.strip()
        if not ok:
            ent["apply"] = "FAILED: " + msg
            print(sid, "patch does not apply:", msg[-200:])
            continue
        ent["apply"] = "ok"
        if prop not in registered:
            ent["own"] = "property not registered"
            print(sid, "property not registered")
        else:
            tiers = ["quick", "thorough"] if a.tier == "both" else [a.tier]
            for t in tiers:
                r = run_check(prop, t)
                ent[t] = r
                print(sid, prop, t, "rc", r["rc"], r["mechanisms"][:4], r["tail"][-1:] if r["rc"] != 1 else "")
                if a.harvest and r["rc"] == 1 and prop in CORPUS_PROPS:
                    cpath = os.path.join(HERE, "vf", "props", "corpus", f"{prop}.json")
                    os.makedirs(os.path.dirname(cpath), exist_ok=True)
                    corpus = json.load(open(cpath)) if os.path.exists(cpath) else []
                    corpus = [e for e in corpus if e.get("seeded") != sid]
                    known = set(r.get("known_findings") or [])
                    for w in getattr(run_check, "last_witnesses", []):
                        if w["mechanism"] in known or w["witness"] is None:
                            continue
                        corpus.append({"seeded": sid, "mechanism": w["mechanism"], "tier": t, "witness": w["witness"]})
                    json.dump(corpus, open(cpath, "w"), indent=0, sort_keys=True)
                if r["rc"] == 1:
                    break
        if a.cross:
            for other in registered:
                if other == prop:
                    continue
                r = run_check(other, "quick")
                ent.setdefault("cross", {})[other] = {"rc": r["rc"], "mechanisms": r["mechanisms"][:6]}
                print("   cross", sid, other, "rc", r["rc"], r["mechanisms"][:3])
        json.dump(matrix, open(mpath, "w"), indent=1, sort_keys=True)
    sh(f"git -C {WT} reset -q --hard")
    if not a.keep:
        sh(f"git -C /repo worktree remove --force {WT}")


if __name__ == "__main__":
    main()
