#!/usr/bin/env python3
"""Run the registered checks against the seeded changes in /verif/seeded/<id>/patch.diff.

Each patch is applied to a scratch worktree of /repo (default /tmp/vfmut, created on demand, removed at the
end unless --keep), the property's check is run with VERIF_REPO_ROOT pointing at it (evidence goes to a temp
dir), and the outcome is written to seeded/MATRIX.json:  {seed id: {tier: {"rc":..., "mechanisms": [...]}}}.

usage: tools/seeded_matrix.py [--only C04-1,C06-2] [--props C04,C05] [--tier quick|thorough|both] [--cross]
  --cross: also run every OTHER sim property's quick check on each patch (which checks catch which changes)
"""
import argparse, json, os, re, subprocess, sys, tempfile, shutil

HERE = os.path.dirname(os.path.dirname(os.path.abspath(__file__)))
WT = os.environ.get("VERIF_MUT_WT", "/tmp/vfmut")


def sh(cmd, **kw):
    return subprocess.run(cmd, shell=True, stdout=subprocess.PIPE, stderr=subprocess.STDOUT, text=True, **kw)


def ensure_wt():
    if not os.path.isdir(os.path.join(WT, "aiokafka")):
        sh("git -C /repo worktree prune")
        r = sh(f"git -C /repo worktree add -q --detach {WT} HEAD")
        if r.returncode:
            sys.exit("cannot create worktree: " + r.stdout)
    sh(f"git -C {WT} reset -q --hard && git -C {WT} checkout -q --detach $(git -C /repo rev-parse HEAD)")


def apply(patch):
    sh(f"git -C {WT} reset -q --hard")
    r = sh(f"git -C {WT} apply --3way {patch} || git -C {WT} apply {patch} || (cd {WT} && patch -p1 --fuzz=3 < {patch})")
    st = sh(f"git -C {WT} status --short").stdout
    conflict = any(l.startswith(("UU", "AA")) for l in st.splitlines())
    return (r.returncode == 0 and not conflict and bool(st.strip())), r.stdout[-400:]


def run_check(prop, tier, timeout=7200):
    ev = tempfile.mkdtemp(prefix="vf-mut-ev-")
    env = dict(os.environ, VERIF_REPO_ROOT=WT, VERIF_EVIDENCE_DIR=ev)
    try:
        r = subprocess.run([os.path.join(HERE, "check"), prop, "--tier", tier], cwd=HERE, env=env, stdout=subprocess.PIPE,
                           stderr=subprocess.STDOUT, text=True, timeout=timeout)
        out, rc = r.stdout, r.returncode
    except subprocess.TimeoutExpired as e:
        out, rc = (e.stdout or b"").decode(errors="replace") if isinstance(e.stdout, bytes) else (e.stdout or ""), "timeout"
    finally:
        shutil.rmtree(ev, ignore_errors=True)
    known = sorted(set(re.findall(r"\[mechanism=([^,\]]+)", out)))
    mechs = sorted(set(m.rstrip(",") for m in re.findall(r"mechanism=(\S+)", out)) - set(known))
    tail = [l for l in out.splitlines() if l.startswith((prop + ":", "INCONCLUSIVE"))][-2:]
    return {"rc": rc, "mechanisms": mechs, "known_findings": known, "tail": [t[:300] for t in tail]}


def main():
    ap = argparse.ArgumentParser()
    ap.add_argument("--only")
    ap.add_argument("--props")
    ap.add_argument("--tier", default="both")
    ap.add_argument("--cross", action="store_true")
    ap.add_argument("--keep", action="store_true")
    a = ap.parse_args()
    man = json.load(open(os.path.join(HERE, "MANIFEST.json")))
    registered = [c["property_id"] for c in man["checks"]]
    mpath = os.path.join(HERE, "seeded", "MATRIX.json")
    matrix = json.load(open(mpath)) if os.path.exists(mpath) else {}
    seeds = sorted(d for d in os.listdir(os.path.join(HERE, "seeded")) if os.path.isfile(os.path.join(HERE, "seeded", d, "patch.diff")))
    if a.only:
        seeds = [s for s in seeds if s in a.only.split(",")]
    if a.props:
        seeds = [s for s in seeds if s.split("-")[0] in a.props.split(",")]
    ensure_wt()
    for sid in seeds:
        prop = sid.split("-")[0]
        ok, msg = apply(os.path.join(HERE, "seeded", sid, "patch.diff"))
        ent = matrix.setdefault(sid, {})
        ent["repo_head"] = sh("git -C /repo rev-parse --short HEAD").stdout.strip()
        if not ok:
            ent["apply"] = "FAILED: " + msg
            print(sid, "patch does not apply:", msg[-200:])
            continue
        ent["apply"] = "ok"
        if prop not in registered:
            ent["own"] = "property not registered"
            print(sid, "property not registered")
        else:
            tiers = ["quick", "thorough"] if a.tier == "both" else [a.tier]
            for t in tiers:
                r = run_check(prop, t)
                ent[t] = r
                print(sid, prop, t, "rc", r["rc"], r["mechanisms"][:4], r["tail"][-1:] if r["rc"] != 1 else "")
                if r["rc"] == 1:
                    break
        if a.cross:
            for other in registered:
                if other == prop:
                    continue
                r = run_check(other, "quick")
                ent.setdefault("cross", {})[other] = {"rc": r["rc"], "mechanisms": r["mechanisms"][:6]}
                print("   cross", sid, other, "rc", r["rc"], r["mechanisms"][:3])
        json.dump(matrix, open(mpath, "w"), indent=1, sort_keys=True)
    sh(f"git -C {WT} reset -q --hard")
    if not a.keep:
        sh(f"git -C /repo worktree remove --force {WT}")


if __name__ == "__main__":
    main()
