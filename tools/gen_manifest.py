#!/usr/bin/env python3
"""Regenerate /verif/MANIFEST.json from vf/manifest_table.py (run after adding a check)."""
import json, os, sys
HERE = os.path.dirname(os.path.dirname(os.path.abspath(__file__)))
sys.path.insert(0, HERE)
from vf.manifest_table import CHECKS, ENGINES, NOTES, HOOK_COMMITS

props = [json.loads(l)["id"] for l in open(os.path.join(HERE, "properties.jsonl"))]
checks, na = [], []
for pid in props:
    c = CHECKS.get(pid)
    if c is None or not c.get("ready"):
        na.append({"property_id": pid, "reason": (c or {}).get("na_reason", "check not built yet (work in progress); not claimed")})
        continue
    e = {
        "property_id": pid,
        "quick_cmd": f"./check {pid} --tier quick",
        "thorough_cmd": f"./check {pid} --tier thorough",
        "evidence_file": f"/verif/evidence/{pid}.json",
        "replay_cmd_template": f"./check {pid} --replay {{path}}",
        "engine": c["engine"],
        "level_claimed": {"category": c["level"], "text": c["text"], "design_ref": c["design_ref"]},
        "level_note": c["note"],
        "technique": c["technique"],
    }
    checks.append(e)
m = {
    "version": 1,
    "setup_cmd": "./setup.sh",
    "hooks": {
        "guard": "AIOKAFKA_VERIF",
        "enable": "no source hooks are needed: checks observe at the network boundary (simulated brokers below loop.create_connection), the API boundary (harness wrappers), by rebinding module attributes from the harness (time shim) and by rebuilding the Cython extension with -fsanitize=address; the guard name is reserved",
        "baseline_off_cmd": "cd /repo && /venv/bin/python -m pytest -ra -q -p no:cacheprovider --timeout=900 --continue-on-collection-errors",
        "source_commits": HOOK_COMMITS,
        "add_only": True,
    },
    "engines": ENGINES,
    "checks": checks,
    "notes": NOTES,
    "not_applicable": na,
}
with open(os.path.join(HERE, "MANIFEST.json"), "w") as f:
    json.dump(m, f, indent=1)
    f.write("\n")
print(f"{len(checks)} checks, {len(na)} not claimed")
