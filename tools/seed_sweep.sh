#!/bin/sh
# usage: tools/seed_sweep.sh <tier> <seed>...   -- every registered check with each seed; evidence goes to a temp dir
TIER=$1; shift
HERE="$(cd "$(dirname "$0")/.." && pwd)"; cd "$HERE"
EV=$(mktemp -d /tmp/vf-sweep-ev-XXXX)
for s in "$@"; do
  for p in $(python3 -c "import json;print(' '.join(c['property_id'] for c in json.load(open('MANIFEST.json'))['checks']))"); do
    out=$(VERIF_EVIDENCE_DIR=$EV ./check $p --tier $TIER --seed $s 2>&1); rc=$?
    echo "seed=$s $p rc=$rc $(echo "$out" | grep -E "^$p:|INCONCLUSIVE|mechanism=" | cut -c1-260 | head -4 | tr '\n' '|')"
  done
done
rm -rf $EV
