#!/bin/sh
# usage: [VF_PROPS="C04 C05"] tools/seed_sweep.sh <tier> <seed>...   -- every registered check (or those in VF_PROPS) with each seed; evidence goes to a temp dir
TIER=$1; shift
HERE="$(cd "$(dirname "$0")/.." && pwd)"; cd "$HERE"
EV=$(mktemp -d /tmp/vf-sweep-ev-XXXX)
for s in "$@"; do
  for p in ${VF_PROPS:-$(python3 -c "import json;print(' '.join(c['property_id'] for c in json.load(open('MANIFEST.json'))['checks']))")}; do
    out=$(VERIF_EVIDENCE_DIR=$EV ./check $p --tier $TIER --seed $s 2>&1); rc=$?
    if [ $rc -ne 0 ]; then mkdir -p "$HERE/.sweep_failures/$TIER-seed$s-$p" && cp -r $EV/replays/$p-* "$HERE/.sweep_failures/$TIER-seed$s-$p/" 2>/dev/null; fi
    echo "seed=$s $p rc=$rc $(echo "$out" | grep -E "^$p:|INCONCLUSIVE|mechanism=" | cut -c1-260 | head -4 | tr '\n' '|')"
  done
done
rm -rf $EV
